"""Per-property configuration and exploration drivers for vcheck."""
import os, glob, hashlib, subprocess

COMMON_TB = [
    'Coq 8.16.1 kernel (coqc; coqchk in the thorough tier); no native_compute; vm_compute only in finite-family lemmas',
    'no axioms: Print Assumptions of every theorem must be "Closed under the global context"',
    'extraction: ExtrOcamlBasic only (bool/option/unit/list/prod/sumbool/sumor Extract Inductive, andb/orb inlined); N, positive, nat stay inductive; OCaml 4.13.1; eval/driver.ml (parsing/printing of case lines)',
    'correspondence harness (Rust, /verif/harness): generators, executors, canonicalisation; vcheck/vprops.py aggregation',
    'the model is a hand transliteration of the Rust source; the correspondence check on every run is what ties it to /repo',
]
SERVE_TB = COMMON_TB + [
    'modelled, not verified: http::HeaderMap/HeaderValue (first-value get, to_str), httpdate (parse/fmt oracle, round trip sampled every run), SystemTime::now (read back from the Date header)',
]

SERVE_ASSUME = [
    'entity length < 2^64; entity mtime within httpdate\'s formatting range',
    'HeaderMap::get returns the first value of a name; HeaderValue::to_str admits exactly HT, SP..~',
    'httpdate::parse_http_date(fmt_http_date(t)) = t on whole seconds (checked on the timestamps of every case)',
]

def serve_prop(fields, trivial, rule, extra_tb=None, extra_assume=None):
    return dict(engine='serve', fields=fields + ['shape'], trivial_tags=trivial, rule=rule,
                trusted_base=SERVE_TB + (extra_tb or []), assumptions=SERVE_ASSUME + (extra_assume or []))

GEN_NOTE = ' Every case is executed on the real crate and re-evaluated by the extracted Coq model; distinct = distinct case inputs (sha1).'
PROPS = {
    'C01': serve_prop(['hdr:content-length', 'hint0', 'body.len', 'body.end'], ['405:text'],
        'mixed requests (methods x Range / If-Range / conditional headers) x entity lengths {0,1,2,79..81,239..241,4095..4097,65535..65537,2^32,2^63,2^64-1} x chunkings (single chunk, random splits with empty chunks and Pendings), all splits of ranges <= 5 (quick) / 6 (thorough) bytes exhaustively, multipart sets. Non-trivial = not the 405 branch.' + GEN_NOTE),
    'C02': serve_prop(['status', 'hdr:content-range', 'calls', 'body.bytes', 'body.end'], ['405:text', '304:empty', '412:text', '400:text'],
        'satisfiable and boundary range requests x entity lengths up to 2^64-1 with position-dependent content x all splits of small ranges (exhaustive) and random chunkings. Non-trivial = a response that reads entity bytes or names a range.' + GEN_NOTE),
    'C03': serve_prop(['status', 'hdr:content-range', 'hdr:content-type', 'calls'], ['200:full'],
        'structured generation from RFC 7233 ASTs: exhaustive small scope (all 1- and 2-spec sets over positions 0..L+2, L<=3 quick / <=6 thorough), boundary product over {0,1,L-1,L,L+1,2^32,2^63,2^64-2,2^64-1,2^64}, sets around the 80-byte estimate, near-miss mutations, arbitrary bytes. Non-trivial = the model does not take the plain "no usable Range -> 200 full" branch.' + GEN_NOTE),
    'C04': serve_prop(['status'], [],
        'categorical product: ETag {absent, strong, weak, strong containing ", "} x mtime {absent, whole second, +500 ms} x If-Match, If-None-Match {absent, *, sampled lists of 1..4 tags mixing equal/different, strong/weak, tags with commas and spaces} x If-Modified-Since, If-Unmodified-Since {absent, -1 day, -1 s, equal, +1 s} x GET/HEAD; plus malformed lists and dates. Every case counts as non-trivial (each is a distinct point of the product).' + GEN_NOTE),
    'C05': serve_prop(['status', 'hdr:content-range', 'calls'], [],
        'ETag {absent, strong, weak, strong with comma} x mtime x If-Range {same, other strength, prefix, suffix, case variants, trailing space, list, different, dates before/equal/after, garbage, *, empty, non-ASCII, arbitrary bytes} x Range {single, multiple, open, malformed, suffix} x GET/HEAD (exhaustive product), some with further conditional headers.' + GEN_NOTE),
    'C06': serve_prop(['status', 'hdr:content-type', 'hdr:content-length', 'hdr:content-range', 'body.bytes', 'body.end', 'calls'], ['200:full', '200:full:fallback'],
        '2..8 satisfiable ranges (overlapping, adjacent, duplicate, at both ends, open and suffix forms) x entity lengths {300, 1000, 1e5, 2^32+7, 2^63, 2^64-1} x 4 entity header sets (0..3 headers, up to 200-byte values) x with/without matching If-Range x honest chunkings. Non-trivial = a multipart response.' + GEN_NOTE),
    'C07': serve_prop(['body.end', 'body.len'], [],
        'fault enumeration, exhaustive for streams of <= 3 (quick) / 4 (thorough) chunks: every chunk index x {early end, error, Pending then error, Pending then early end, one byte short, one extra byte, empty chunk, Pending, one extra chunk, error after completion} x shapes {200, single 206, multipart part j of n, n <= 3}; plus random faulty streams in mixed requests.' + GEN_NOTE),
    'C12': serve_prop(['hint0', 'eos0', 'poll.hint', 'poll.eos', 'polls', 'ops', 'once.hint0', 'once.bytes'], [],
        'size_hint() and is_end_stream() sampled before the first and after every poll of every body of a mixed request stream, multipart sets, fault scripts and exhaustive small chunkings; Body::empty() and the four Body::from conversions for lengths {0,1,2,255,4096,65537}; and, for streaming_body bodies, after every operation of random write/flush/poll histories with and without abort / body drop, raw and gzip.' + GEN_NOTE),
    'C13': serve_prop(['status.class', 'allow', 'calls.405', 'body.panic'], [],
        'methods (standard and extension tokens) x header values from three streams (grammar-derived, near-miss, arbitrary bytes incl. >= 0x80) x repeated header lines x entity lengths {0,1,...,2^32,2^63,2^64-1} x ETag/mtime presence; panics are caught around serve() and around every poll.' + GEN_NOTE),
    'C14': serve_prop(['status', 'hdr:accept-ranges', 'hdr:etag', 'hdr:date', 'hdr:last-modified', 'hdr:content-type', 'hdr:x-*', 'hdr:content-language'], [],
        'two-request histories: GET (plain / single range / several ranges), then one request per non-empty subset of the validators the first response actually served (If-None-Match, If-Match, If-Range + Range, If-Modified-Since, If-Unmodified-Since) x ETag {absent, strong, weak, with comma} x mtime {absent, epoch, whole second, +1 ms, +1 ns, 1 ns before the next second, 3 s ago, one day ahead} x 4 entity header sets.' + GEN_NOTE),
    'C15': serve_prop(['status', 'hdr:*', 'calls', 'hint0', 'body.len', 'body.end', 'writer'], [],
        'every GET/HEAD request of a broad mix (mixed requests, multipart sets, If-Range product, conditional product) executed with GET and with HEAD; the twins are diffed by the harness (status, headers apart from Date, entity reads, body bytes) and each is compared with the model; streaming_body GET/HEAD twins over Accept-Encoding x gzip level x builder call sequences x {Request, Parts} (same headers, no writer and an empty body for HEAD).' + GEN_NOTE),
    'C20': serve_prop(['body.after', 'body.panic', 'once.bytes'], [],
        'every body polled 1..4 more times after each kind of terminal event (clean end, entity error, too short, too long) at every fault position of the C07 enumeration, plus mixed requests with faulty fused streams and multipart sets, and Body::empty() / Body::from bodies polled up to 5 times.' + GEN_NOTE),
}

PROPS['C16'] = dict(engine='negot', fields=['result'], trivial_tags=['absent', 'false:unparseable', 'false:non-ascii', 'false'],
    rule='Accept-Encoding ASTs over codings {gzip, identity, *, br, deflate, x-gzip} x 20 weights (the 11 of the quantifier + digit counts that cross: 0.05, 0.45, 0.49, 0.051, 0.10, 0.100, ...): all lists of <= 2 (quick) / <= 3 (thorough, 3-element lists sampled 1/4 per seed) elements with canonical whitespace, sampled lists of <= 4 elements with OWS variants and duplicates, near misses, arbitrary bytes. Non-trivial = a header in which gzip, identity or * was recognised.' + GEN_NOTE,
    trusted_base=COMMON_TB + ['modelled, not verified: HeaderValue::to_str, str::trim restricted to SP/HT (the only whitespace to_str admits)'],
    assumptions=['HeaderMap::get returns the first Accept-Encoding value', 'to_str admits exactly HT, SP..~'])

STREAM_TB = COMMON_TB + ['modelled, not verified: std::sync::Mutex (mutual exclusion), Waker (will_wake iff same waker; wake recorded by the harness wakers), Vec::reserve_exact(cap) giving capacity cap (observable as frame sizes), flate2/miniz_oxide (checked by independent inflaters)']
STREAM_ASSUME = ['chunk size >= 1 (with_chunk_size(0) is rejected by an assertion in the crate)', 'one thread performs the operations of a history in order (interleavings are C10)']
def stream_prop(fields, trivial, rule):
    return dict(engine='stream', fields=fields + ['shape'], trivial_tags=trivial, rule=rule, trusted_base=STREAM_TB, assumptions=STREAM_ASSUME)
PROPS['C08'] = stream_prop(['op.wres', 'stream.delivered', 'stream.end', 'hint0', 'eos0', 'writer'], ['raw:head'],
    'all sequences of <= 4 (quick) / 5 (thorough) operations over {write(0,1,cap-1,cap,cap+1,2cap,3cap bytes), flush, poll-until-pending} for chunk sizes 1..4, each followed by drop + drain (exhaustive); random sequences of <= 40 operations (write, write_all, flush, poll, poll-until-pending, same or fresh waker) for chunk sizes {1,2,3,4,7,4096,65536}. Payload bytes carry their position. Non-trivial = the request has a writer.' + GEN_NOTE)
PROPS['C11'] = stream_prop(['op.wres', 'stream.delivered', 'stream.end', 'trace'], [],
    'an abort or a body drop inserted at every position of every sequence of <= 3 (quick) / 4 (thorough) operations over {write(1,cap,cap+1,3cap), flush, poll-until-pending} x chunk sizes {1,2,4} x raw and gzip writers, followed by 3 x (write, flush), drain, drop; the 1000 x (write, flush) after body drop scenario; random sequences with a fault. Concurrent part (engine sched): every producer program of C10 that aborts, and every program against a consumer that drops the body after 0..2 polls, under all schedules (<= 200 quick / 2000 thorough per program) with yield points after every producer lock release and before any second lock acquisition inside one consumer poll; outcome clauses are computed from the executed trace alone (clean end after abort, write/flush succeeding after abort, delivered bytes not a prefix of the accepted bytes, consumer never told).' + GEN_NOTE)
PROPS['C09'] = stream_prop(['hdr:vary', 'hdr:content-encoding', 'writer', 'gz.results'], [],
    'gzip levels 1..9 x chunk sizes {1,2,3,5,8,10,18,19,4096,65536} x payloads {empty, 1 byte, incompressible, highly compressible, text; 600 B for tiny chunks, 20 KiB (quick) / 200 KiB (thorough)} x 4 write/flush shapes (one write_all; flush in the middle with drains; many small writes with random flushes; flushes before any data), plus random sequences. Every body is decoded by an independent inflater (Python zlib, streaming) after every flush and at the end; and the extracted model of the Gzipped BodyWriter (Model/GzWriter.v) is run with what a shadow encoder of the same construction handed to its sink, call by call, and must reproduce every operation result and every frame of the real body.' + GEN_NOTE)
PROPS['C17'] = stream_prop(['hdr:vary', 'hdr:content-encoding', 'writer', 'stream.delivered', 'stream.end'], [],
    '21 Accept-Encoding values (absent, empty, gzip/identity/* with weights, other codings, malformed) x gzip level 0..9 x chunk sizes {1,7,4096} x methods {GET, HEAD, POST} x {Request, Parts} (a third sampled per seed in the quick tier); the body is decoded according to the Content-Encoding header and compared with the payload.' + GEN_NOTE)

PROPS['C19'] = dict(engine='dir', fields=['result'], trivial_tags=[],
    rule='all paths of <= 3 (quick) / 4 (thorough) segments over {a, sub, .., ., ..., ..a, a.., empty, secret} joined by "/" with optional leading/trailing slash (quick: sampled over auto_gzip/Accept-Encoding), NUL injected at every position of the short ones, named cases around .gz siblings, .gz directories and missing files, against a real directory tree (plain files, .gz siblings, a .gz directory, a .gz without plain file, a secret outside the base) x Accept-Encoding {absent, gzip, identity, gzip;q=0, *} x auto_gzip on/off. The openat results the model consumes are obtained by the harness itself with libc::openat + fstat on its own base fd.' + GEN_NOTE,
    trusted_base=COMMON_TB + ['modelled, not verified: openat / fstat (oracle table obtained independently per case), kernel path resolution incl. symlinks (outside the model; the crate allows them), tokio spawn_blocking'],
    assumptions=['the API takes &str: paths are UTF-8', 'symlink-free tree for the containment theorem'])

PROPS['C18'] = dict(engine='file', fields=['meta', 'file.total', 'file.end', 'new'], trivial_tags=['refused'],
    rule='real temporary files of sizes {0, 1, 65535, 65536, 65537, 131072, 200001} with position-dependent bytes x ranges whose ends lie on, just before and just after 64 KiB boundaries (plus empty and whole; half sampled in the quick tier) x truncation (set_len) to {0, start, start+1, middle, end-1, end, start+65535..65537} before poll 0, 1 or 2 (a third sampled in the quick tier); a directory and /dev/null; validators across instances (unmodified, appended, touched, replaced) and the entity through serve() with Range headers as harness-level checks. The model is run with the file length the harness saw at each read and the observed read sizes (any legal short read is accepted).' + GEN_NOTE,
    trusted_base=COMMON_TB + ['modelled, not verified: pread (returns 1..=min(asked, available) bytes, 0 at or after EOF), fstat, tokio block_in_place; Windows code paths are not compiled here'],
    assumptions=['no concurrent writer other than the harness\'s own set_len between polls', 'modification time after the epoch (else etag() panics by an explicit expect)'])

PROPS['C10'] = dict(engine='sched', fields=['trace'], trivial_tags=[],
    rule='stateless depth-first enumeration of schedules of the real chunker (two OS threads under a baton, decision points: operation boundaries, the point right after every lock release of the producer -- reported by the verif-hooks mutex --, every consumer poll, and the point before any second lock acquisition inside one consumer poll) for all producer programs of <= 3 (quick) / 4 (thorough) operations over {write(chunk-completing), write(partial), flush, wait-until-consumer-parked, abort, drop} x chunk sizes {1,2} x waker policy {same, fresh per poll} x {0,2} spurious polls while parked, and body drops after 0..2 polls; capped at 400 (quick) / 4000 (thorough) schedules per program. Each executed schedule is replayed event by event on the Coq transition system (critical sections, wake-ups with waker identity, poll results) and the invariant J is evaluated after every event.' + GEN_NOTE,
    trusted_base=STREAM_TB + ['the baton scheduler of the harness (harness/src/sched_engine.rs) and the verif-hooks mutex wrapper in /repo/src/verif_hooks.rs'],
    assumptions=['std::sync::Mutex provides mutual exclusion; effects below the mutex (weak memory) are not exhibited', 'every operation of the real code holds the lock for contiguous sections and wakes only after releasing it (checked per schedule by the hook: wake-while-locked, lock count per operation)', 'write_all is not part of the concurrent programs (each of its writes is one such operation)'])

# a case on which the implementation does not return is a failure of the property itself where the
# property speaks about bodies being delivered, ending or reporting errors; for the properties that
# only constrain status and headers it is reported as a broken correspondence (the model is total)
for _p in ('C03', 'C04', 'C05', 'C14', 'C15'):
    PROPS[_p]['hang_is_violation'] = False

def known_class(prop, specfail, known_here):
    """Returns the known-finding entry whose class contains this failing case, if any."""
    for k in known_here:
        f = KNOWN_CLASSES.get(k['key'])
        if f and f(specfail):
            return k
    return None

def _future_mtime_date_echo(sf):
    # entity modification time later than the response clock, request echoes the served
    # Last-Modified in If-Modified-Since and/or If-Unmodified-Since
    c = sf.get('class', '')
    if 'mtime=future' not in c or 'echo=' not in c:
        return False
    echo = c.split('echo=')[1].split(' ')[0].split('+')
    return ('ims' in echo or 'ius' in echo) and sf.get('clause', '').startswith('C14:echoed-')

KNOWN_CLASSES = {'future-mtime-date-echo': _future_mtime_date_echo}

def relevant(field, patterns):
    for p in patterns:
        if p.endswith('*'):
            if field.startswith(p[:-1]):
                return True
        elif field == p:
            return True
    return False

# seconds without progress after which a harness worker is given up on (one case takes milliseconds)
STALL = {'quick': 45, 'thorough': 120}
CASE_LIMIT = {'quick': 10, 'thorough': 30}

def explore(prop, cfg, tier, seed, work, result, T):
    if cfg['engine'] in ('serve', 'negot', 'stream', 'dir', 'file', 'sched'):
        return explore_lines(prop, cfg, tier, seed, work, result, T)
    raise RuntimeError('unknown engine')

def explore_lines(prop, cfg, tier, seed, work, result, T):
    """Engines whose cases are independent lines: corpus first, then generated cases."""
    ROOT = T['ROOT']
    cases = os.path.join(work, 'all.cases')
    meta = {}
    with open(cases, 'w') as out:
        # corpus of minimised past failures runs first
        corpus = sorted(glob.glob(os.path.join(ROOT, 'corpus', prop, '*.case')))
        if corpus:
            lines = []
            for f in corpus:
                for l in open(f):
                    l = l.strip()
                    if l and not l.startswith('#'):
                        lines.append(l)
            for k, cl in enumerate(lines):
                # one process per corpus case, under a time limit: a case that no longer returns is a finding, not a crash of the check
                try:
                    rc, o = T['run']([T['harness_bin'](), 'run'], stdin=cl + '\n', timeout=CASE_LIMIT[tier] * 3)
                    how = None if rc == 0 else 'the process died (exit status %s)' % rc
                except subprocess.TimeoutExpired:
                    o, how = '', 'did not return within %d s' % (CASE_LIMIT[tier] * 3)
                if how:
                    rec = {'id': 'corpus-%d' % k, 'line': cl, 'class': 'corpus', 'field': 'returns', 'model': 'returns (totality theorem)',
                           'impl': how, 'clause': prop + ':implementation-does-not-return'}
                    (result['specfails'] if cfg.get('hang_is_violation', True) else result['divergences']).append(rec)
                    continue
                for l in o.split('\n'):
                    if l:
                        eng, cid, rest = l.split(' ', 2)
                        cid = 'corpus-%d' % k
                        meta[cid] = ('corpus', '')
                        out.write('%s %s %s\n' % (eng, cid, rest))
        profiles = T.get('profiles') or (['debug'] + (['release'] if tier == 'thorough' else []))
        for prof in profiles:
            base = os.path.join(work, 'run-' + prof)
            for ext in ('.cases', '.meta'):
                if os.path.exists(base + ext):
                    os.remove(base + ext)
            err, hangs, _ = T['run_watched']([T['harness_bin'](prof), 'gen-run', '--property', prop, '--tier', tier, '--seed', str(seed), '--out', base, '--case-limit', str(CASE_LIMIT[tier])],
                                             stall=STALL[tier])
            if err:
                raise RuntimeError(err)
            confirmed = []
            for h in hangs:
                # Was it the case, or the machine? The case is run again on its own, twice, with a longer limit:
                # only a case that fails to return every time is reported (a worker starved of CPU by other
                # work on the machine must not become a finding).
                again = 0
                for attempt in range(2):
                    ob = os.path.join(work, 'confirm-%s-%d-%d' % (prof, h['index'], attempt))
                    e2, h2, _ = T['run_watched']([T['harness_bin'](prof), 'gen-run', '--property', prop, '--tier', tier, '--seed', str(seed), '--out', ob,
                                                   '--only', str(h['index']), '--case-limit', str(CASE_LIMIT[tier] * 4)], stall=STALL[tier] * 2, max_hangs=1)
                    if e2 or h2:
                        again += 1
                    for ext in ('.cases', '.meta'):
                        if os.path.exists(ob + ext):
                            os.remove(ob + ext)
                if again == 2:
                    confirmed.append(h)
                else:
                    # it returns when run on its own: recorded as a note, and its observation is missing from this
                    # run (the evidence says so)
                    result['extra'].setdefault('cases_slow_once_but_returning', []).append({'index': h['index'], 'class': h['class'], 'how': h['how'], 'profile': prof})
            for h in confirmed:
                # the implementation did not return (or took the process down) on this generated case
                rec = {'id': '%s-hang-%d' % (prof[0], h['index']),
                       'line': 'hang %s %s %d %s %d %s' % (prop, tier, seed, prof, h['index'], h['class']),
                       'class': h['class'], 'field': 'returns', 'model': 'returns (totality theorem)', 'impl': h['how'],
                       'clause': prop + ':implementation-' + ('does-not-return' if 'return' in h['how'] else 'takes-the-process-down')}
                if cfg.get('hang_is_violation', True):
                    result['specfails'].append(rec)
                else:
                    result['divergences'].append(rec)
                result['extra'].setdefault('cases_not_returning', []).append({'index': h['index'], 'class': h['class'], 'how': h['how'], 'profile': prof})
            if not os.path.exists(base + '.cases'):
                open(base + '.cases', 'w').close(); open(base + '.meta', 'w').close()
            for l in open(base + '.meta'):
                p = l.rstrip('\n').split('\t')
                meta[prof[0] + p[0]] = (p[1], p[2] if len(p) > 2 else '')
            for l in open(base + '.cases'):
                eng, cid, rest = l.split(' ', 2)
                out.write('%s %s%s %s' % (eng, prof[0], cid, rest))
    n = T['evaluate'](cases, os.path.join(work, 'all.out'))
    result['evaluations'] = n
    res = T['read_results'](os.path.join(work, 'all.out'))
    # every case must come back from the evaluator: a case without a verdict is a broken check, never a pass
    for l in open(cases):
        cid = l.split(' ', 2)[1]
        if cid not in res:
            result['bad'].append(cid)
    wanted = {}
    gz_ids = set()
    trivial = set(cfg.get('trivial_tags', []))
    interesting = {}
    for cid, findings in res.items():
        tag = ''
        for f in findings:
            kind = f[0].decode()
            field = f[1].decode(errors='replace')
            if kind == 'TAG':
                tag = field
                result['tags'][field] = result['tags'].get(field, 0) + 1
            elif kind == 'DIV':
                if relevant(field, cfg['fields']):
                    wanted.setdefault(cid, []).append(('div', field, T['show'](f[2]), T['show'](f[3])))
                else:
                    result['drift'][field] = result['drift'].get(field, 0) + 1
            elif kind == 'SPEC':
                if field.startswith(prop + ':'):
                    wanted.setdefault(cid, []).append(('spec', field, '', ''))
            elif kind == 'BAD':
                result['bad'].append(cid)
        interesting[cid] = tag
        if tag.startswith('gzip') and cfg['engine'] == 'stream':
            gz_ids.add(cid)
        chk = meta.get(cid, ('', ''))[1]
        for c in [x for x in chk.split(',') if x]:
            if c.startswith(prop + ':'):
                wanted.setdefault(cid, []).append(('spec', c, '', ''))
            elif not c[:1] == 'C':
                result['oracle_checks'].append('%s: %s' % (cid, c))
    # one pass over the case file: hashes for distinctness, lines for replays, samples
    nsamples = 0
    ngz = 0
    for l in open(cases):
        eng, cid, rest = l.rstrip('\n').split(' ', 2)
        if cid in gz_ids:
            v, _ = T['parse_val'](rest.split())
            ngz += 1
            for c in gz_oracle(prop, v):
                if c.startswith(prop + ':'):
                    wanted.setdefault(cid, []).append(('spec', c, '', ''))
        tag = interesting.get(cid, '')
        if tag and tag not in trivial:
            # the input is the first element of the case value: hash up to the observation is enough
            result['nontrivial'].add(hashlib.sha1(input_part(rest).encode()).hexdigest())
        if nsamples < 12 and cid in meta and (nsamples < 4 or tag not in trivial):
            if nsamples % 1 == 0:
                result['samples'].append({'id': cid, 'class': meta[cid][0], 'model_branch': tag})
                nsamples += 1
        if cid in wanted:
            for kind, field, m, i in wanted[cid]:
                rec = {'id': cid, 'line': l.rstrip('\n'), 'class': meta.get(cid, ('', ''))[0], 'field': field, 'model': m, 'impl': i, 'clause': field}
                (result['divergences'] if kind == 'div' else result['specfails']).append(rec)
    if ngz:
        result['extra']['gzip_bodies_decoded_by_independent_inflater'] = ngz

def gz_oracle(prop, toks_val):
    """Independent inflater (Python zlib, streaming) over a gzip stream-engine case.
    Returns clause names that fail. Clauses are attributed to C09 (and C17 for coding/header agreement)."""
    import zlib
    inp, obs = toks_val
    if not isinstance(obs, list) or len(obs) != 5:
        return []
    cap, level, meth, ae, parts, ops = inp[:6]
    hdrs, has_writer, h0, e0, results = obs
    fails = []
    accepted = b''
    out = b''
    d = zlib.decompressobj(31)
    exact, aborted, reader, failed = True, False, True, False
    flushed = not has_writer
    nshort = 0      # frames shorter than the chunk size: each must have been queued by a flush or the drop
    nflush = 0
    try:
        for op, res in zip(ops, results):
            code = op[0]
            r = res[0]
            if code == 0:
                if isinstance(r, list) and r and r[0] == 0:
                    accepted += op[1][:r[1]]
                    if r[1] > 0:
                        flushed = False
                else:
                    failed = True
            elif code == 8:
                # write_vectored: Ok(n) means the first n bytes of the concatenation of the slices
                if isinstance(r, list) and r and r[0] == 0:
                    accepted += b''.join(op[1])[:r[1]]
                    if r[1] > 0:
                        flushed = False
                else:
                    failed = True
            elif code == 1:
                if r == [2]:
                    accepted += op[1]
                    if len(op[1]) > 0:
                        flushed = False
                else:
                    exact = False
                    failed = True
            elif code == 2:
                # BodyWriter::flush runs the encoder's flush twice (fix F10): up to two short frames
                nflush += 2
                if r == [2]:
                    flushed = True
                else:
                    failed = True
            elif code == 3:
                aborted = True
            elif code == 4:
                nflush += 1
                flushed = True
            elif code == 6:
                reader = False
            elif code == 5:
                if isinstance(r, bytes):
                    if len(r) == 0 or len(r) > cap:
                        fails.append('C09:frame-size-within-chunk-size')
                    if len(r) < cap:
                        nshort += 1
                        if nshort > nflush:
                            fails.append('C09:short-frame-only-from-flush-or-drop')
                    out += d.decompress(r)
                elif r in ([4], [5]):
                    if flushed and exact and not aborted and reader and not failed:
                        if out != accepted:
                            fails.append('C09:flush-makes-written-bytes-decodable')
                    if r == [5] and exact and not aborted and reader and not failed and has_writer:
                        if not d.eof:
                            fails.append('C09:one-valid-gzip-member')
                        elif d.unused_data != b'':
                            fails.append('C09:no-trailing-bytes-after-member')
                        if out != accepted:
                            fails.append('C09:decompresses-to-written-bytes')
    except zlib.error as e:
        fails.append('C09:inflater-rejects-stream')
    if prop == 'C17':
        fails = ['C17:gzip-header-but-body-not-gzip-of-payload' for f in fails[:1]]
    return fails

def _noop():
    pass

def input_part(rest):
    """Text of the input value (first element of the top-level list)."""
    toks = rest.split()
    depth = 0
    for i, t in enumerate(toks):
        if t == '(':
            depth += 1
        elif t == ')':
            depth -= 1
            if depth == 1 and i > 1:
                return ' '.join(toks[1:i + 1])
    return rest
