#!/usr/bin/env python3
"""Regenerates MANIFEST.json from the table below (developer tool; MANIFEST.json is what is committed)."""
import json
props = [json.loads(l) for l in open('/verif/properties.jsonl')]
TIE = ' The model is tied to /repo by the correspondence check: on every run the real crate and the extracted model are executed on the same generated cases and every difference in the fields this property constrains is reported; executable property oracles search the observations for a concrete failing input.'
NOTE = 'Trusted: Coq 8.16.1 kernel; extraction with ExtrOcamlBasic and the OCaml driver; the Rust harness and vcheck; the hand transliteration of the Rust source (accountable through the correspondence check, which samples and does not prove equality with the binary). Modelled, not verified: '
CLAIMS = {
 'C01': ('serve', 'Theorems over the body state machines (Once / ExactLen / Multipart) for every number of polls and every behaviour of the entity streams: delivered + announced-left <= announced (equality without error), a clean end delivers exactly the announced bytes; and over serve_model for every request and entity length < 2^64: 200/206 carry exactly one Content-Length equal to the body hint, the other statuses none and an exact constant-size body.', 'http::HeaderMap, httpdate, the clock.', 'Coq proof (run invariant by induction over polls; response-shape theorem) + differential correspondence'),
 'C03': ('serve', 'Theorems over a Gallina transliteration of range::parse: every grammatical byte-range-set (any number of specs, OWS, leading zeros, every entity length < 2^64) resolves as RFC 7233 prescribes; numbers >= 2^64 and everything outside the grammar are ignored (proved as the converse).', 'HeaderValue::to_str.', 'Coq proof (parser vs RFC grammar AST, unbounded lists) + differential correspondence'),
 'C07': ('serve', 'Theorems: an ExactLen body that reports a clean end without an earlier error has consumed a stream that delivered exactly the announced bytes and never failed (so every early end, error, missing or extra byte is an error, at any chunk); oversized chunks are never passed on; a part error inside a multipart body is forwarded at once and fuses the body. Fault enumeration on the real crate for streams of <= 4 chunks.', 'the Stream contract of the entity (scripted in the harness).', 'Coq proof (induction over polls and scripted events) + exhaustive fault enumeration as correspondence'),
 'C12': ('serve', 'Theorems: serve / Body::from bodies give exact hints; at every split point of every clean run the hint equals the bytes still delivered; the hint bounds what comes in any run; a body at end-of-stream delivers no further byte, and over an honest stream never an error. Partial: the streaming (chunker) body kind is covered by its own model (C08/C11 family), not by these theorems.', 'http_body::SizeHint plumbing.', 'Coq proof (per-step invariant) + per-poll sampling of size_hint/is_end_stream as correspondence'),
 'C13': ('serve', 'Theorems: serve_model returns Ok (no modelled panic site -- u64 overflow/underflow, indexing, debug assertions -- is reachable) for every method, header bytes and entity length < 2^64, with status in the eight allowed; draining is total for any number of polls and any stream behaviour (multipart invariant); other methods get exactly the 405 response.', 'the http crate (HeaderMap::get = first value), httpdate formatting domain.', 'Coq proof (totality of the model with explicit Panic results) + differential correspondence in debug and release'),
 'C15': ('serve', 'Theorems: for every request and entity, serve_model under HEAD equals serve_model under GET with body-bearing plans emptied (same status, same header list); a HEAD response makes no get_range call and is empty for 200/206/304/416. The harness additionally diffs real GET/HEAD twins.', 'http crate, clock (Date excluded from the twin diff).', 'Coq proof (equation between the two model runs) + twin differential check'),
 'C20': ('serve', 'Theorems: after the first end or error of any serve body no further poll yields a byte (for entity streams that stay finished once failed) and none panics; a multipart body is fused after any terminal event. The pinned-tree behaviour is refuted by a vm_compute witness (second error, then index panic), fixed in /repo.', 'the entity stream contract.', 'Coq proof (quiet-state invariant) + extra-poll enumeration as correspondence'),
}
m = json.load(open('/verif/MANIFEST.json'))
m['checks'] = []
for p in props:
    pid = p['id']
    if pid in CLAIMS:
        eng, text, modelled, tech = CLAIMS[pid]
        m['checks'].append({
            'property_id': pid, 'quick_cmd': './vcheck %s --tier quick' % pid, 'thorough_cmd': './vcheck %s --tier thorough' % pid,
            'evidence_file': 'evidence/%s.json' % pid, 'replay_cmd_template': './vcheck %s --replay {path}' % pid,
            'engine': 'coq+eval+' + eng,
            'level_claimed': {'category': 'proof', 'text': text + TIE, 'design_ref': 'DESIGN.md section 8 (%s), sections 4-5' % pid},
            'level_note': NOTE + modelled, 'technique': tech})
m['not_applicable'] = [{'property_id': p['id'], 'reason': 'check not registered yet (build in progress; DESIGN.md section 8 describes the planned proof + correspondence)'} for p in props if p['id'] not in CLAIMS]
claimed = sorted(CLAIMS)
for e in m['engines']:
    e['serves_properties'] = claimed
m['notes'] = 'Every check: Coq theorems (coq/Properties/<id>.v) + correspondence model/implementation + property oracles; see DESIGN.md.'
json.dump(m, open('/verif/MANIFEST.json', 'w'), indent=1)
print('claimed', claimed)
