#!/usr/bin/env python3
"""Developer tool: systematic single-token mutation of /repo/src against the quick checks.

  muttool.py gen                 -> /root/scratch/mut/mutants.json
  muttool.py run [--workers N] [--only FILE.rs] [--limit K] [--stride S]
  muttool.py report

Each worker has its own copy of /repo and of /verif under /root/scratch/mut/w<k>/ (the harness's
path dependency is pointed at the copy), so /repo itself is never touched. For every mutant that
compiles: the quick checks of the properties anchored in the mutated file are run until one reports
a violation; if none does, the repository's own test suite is run to see whether the mutant is one
the existing tests already kill (those are not interesting). Survivors -- mutants that compile, pass
the existing suite and raise no alarm -- are either equivalent mutants or gaps in the checks.
"""
import sys, os, re, json, subprocess, shutil, time, threading, queue

ROOT = '/root/scratch/mut'
SRC = '/repo/src'
FILES = {
    'range.rs': ['C03', 'C02', 'C13'],
    'etag.rs': ['C04', 'C05', 'C13', 'C14'],
    'serving.rs': ['C01', 'C03', 'C04', 'C05', 'C06', 'C07', 'C02', 'C14', 'C15', 'C12', 'C13', 'C20'],
    'body.rs': ['C07', 'C01', 'C12', 'C20', 'C02'],
    'chunker.rs': ['C08', 'C11', 'C10', 'C12', 'C09'],
    'gzip.rs': ['C09', 'C11', 'C17', 'C08'],
    'lib.rs': ['C16', 'C17', 'C15', 'C13'],
    'file.rs': ['C18'],
    'platform.rs': ['C18'],
    'dir.rs': ['C19'],
}
# (pattern, replacements): applied to code outside comments, strings and test modules
OPS = [
    (r'<=', ['<', '==']), (r'>=', ['>', '==']), (r'==', ['!=']), (r'!=', ['==']),
    (r'(?<![<>=!-])<(?![<=])', ['<=']), (r'(?<![<>=!-])>(?![>=])', ['>=']),
    (r'&&', ['||']), (r'\|\|', ['&&']),
    (r'(?<![+])\+(?![+=])', ['-']), (r'(?<![-])-(?![->=])', ['+']),
    (r'\+=', ['-=']), (r'-=', ['+=']),
    (r'\btrue\b', ['false']), (r'\bfalse\b', ['true']),
    (r'\b0\b', ['1']), (r'\b1\b', ['0', '2']),
    (r'\bSome\(', None), (r'!(?=[a-zA-Z_(])', ['']),
    (r'\bsaturating_sub\b', ['wrapping_sub']), (r'\bsaturating_add\b', ['wrapping_add']),
    (r'\bchecked_add\b', ['checked_sub']), (r'\bmin\(', ['max(']), (r'\bmax\(', ['min(']),
    (r'\.take\(\)', ['.clone()']), (r'\bis_none\(\)', ['is_some()']), (r'\bis_some\(\)', ['is_none()']),
    (r'\bis_empty\(\)', ['len() == 1']),
]

def code_lines(path):
    """yields (lineno, text, is_code) with test modules, comments and attribute lines excluded"""
    lines = open(path).read().split('\n')
    out = []
    in_tests = False
    depth_tests = 0
    for i, l in enumerate(lines):
        st = l.strip()
        if re.match(r'#\[cfg\(test\)\]', st) or re.match(r'#\[cfg\(all\(test', st):
            in_tests = True
        if in_tests:
            out.append((i, l, False)); continue
        if st.startswith('//') or st.startswith('#[') or st.startswith('#!') or st.startswith('use ') or st.startswith('debug_assert'):
            out.append((i, l, False)); continue
        out.append((i, l, True))
    return out

def strip_strings(l):
    """mask string literals and trailing comments so operators inside them are not mutated"""
    res = []
    ins = False
    i = 0
    while i < len(l):
        c = l[i]
        if ins:
            if c == '\\':
                res.append('__'); i += 2; continue
            if c == '"':
                ins = False
            res.append('_' if c != '"' else '"')
        else:
            if c == '"':
                ins = True; res.append('"')
            elif l.startswith('//', i):
                res.append('_' * (len(l) - i)); break
            else:
                res.append(c)
        i += 1
    return ''.join(res)

def gen():
    muts = []
    for f in FILES:
        path = os.path.join(SRC, f)
        for i, l, is_code in code_lines(path):
            if not is_code:
                continue
            masked = strip_strings(l)
            for pat, reps in OPS:
                if reps is None:
                    continue
                for m in re.finditer(pat, masked):
                    # skip generics / lifetimes / arrows / attributes heuristically
                    ctx = masked[max(0, m.start() - 2):m.end() + 2]
                    if pat.startswith(r'(?<![<>=!-])') and (re.search(r'[A-Za-z_:]<|<[A-Z\'&]|->|=>', masked[max(0, m.start() - 1):m.end() + 2]) and not re.search(r'\s[<>]\s', ctx)):
                        continue
                    if m.group(0) == '-' and (masked[m.end():m.end() + 1] == '>' ):
                        continue
                    for r in reps:
                        muts.append({'file': f, 'line': i, 'col': m.start(), 'old': m.group(0), 'new': r, 'text': l.strip()[:140]})
    for k, m in enumerate(muts):
        m['id'] = k
    os.makedirs(ROOT, exist_ok=True)
    json.dump(muts, open(os.path.join(ROOT, 'mutants.json'), 'w'), indent=0)
    by = {}
    for m in muts:
        by[m['file']] = by.get(m['file'], 0) + 1
    print(len(muts), 'mutants', by)

def sh(cmd, cwd=None, timeout=1800, env=None):
    e = dict(os.environ, CARGO_NET_OFFLINE='true')
    if env:
        e.update(env)
    try:
        p = subprocess.run(cmd, cwd=cwd, shell=isinstance(cmd, str), stdout=subprocess.PIPE, stderr=subprocess.STDOUT, timeout=timeout, env=e, text=True, errors='replace')
        return p.returncode, p.stdout
    except subprocess.TimeoutExpired:
        return 124, 'timeout'

def setup_worker(k):
    w = os.path.join(ROOT, 'w%d' % k)
    if os.path.exists(os.path.join(w, 'ready')):
        return w
    shutil.rmtree(w, ignore_errors=True)
    os.makedirs(w)
    sh('rsync -a --exclude target --exclude .git /repo/ %s/repo/' % w)
    sh('rsync -a --exclude work --exclude harness/target --exclude harness/target-nohooks --exclude .git --exclude seeded --exclude benign /verif/ %s/verif/' % w)
    ct = os.path.join(w, 'verif/harness/Cargo.toml')
    s = open(ct).read().replace('path = "/repo"', 'path = "%s/repo"' % w)
    open(ct, 'w').write(s)
    rc, out = sh('cargo build --offline --quiet', cwd=os.path.join(w, 'verif/harness'))
    if rc != 0:
        raise RuntimeError('worker harness build failed: ' + out[-2000:])
    # pre-build the repository's own tests once (incremental afterwards)
    sh('cargo test --offline --features dir --no-run', cwd=os.path.join(w, 'repo'))
    open(os.path.join(w, 'ready'), 'w').write('ok')
    return w

def run_one(w, m):
    src = os.path.join(w, 'repo/src', m['file'])
    orig = open(os.path.join(SRC, m['file'])).read()
    lines = orig.split('\n')
    l = lines[m['line']]
    lines[m['line']] = l[:m['col']] + m['new'] + l[m['col'] + len(m['old']):]
    open(src, 'w').write('\n'.join(lines))
    res = {'id': m['id'], 'file': m['file'], 'line': m['line'] + 1, 'old': m['old'], 'new': m['new'], 'text': m['text']}
    try:
        rc, out = sh('cargo build --offline --quiet --features dir,verif-hooks', cwd=os.path.join(w, 'repo'), timeout=600)
        if rc != 0:
            res['outcome'] = 'does-not-compile'
            return res
        t0 = time.time()
        for p in FILES[m['file']]:
            rc, out = sh(['./vcheck', p], cwd=os.path.join(w, 'verif'), timeout=900)
            if 'VIOLATION' in out:
                res['outcome'] = 'detected'
                res['by'] = p
                res['kind'] = 'no-failing-input-found' if 'no-failing-input-found' in out else 'concrete'
                res['secs'] = round(time.time() - t0, 1)
                return res
            if rc not in (0, 1):
                res.setdefault('check_errors', []).append('%s rc=%s %s' % (p, rc, out[-300:]))
        # undetected: would the repository's own suite have killed it?
        rc, out = sh('cargo test --offline --features dir --no-fail-fast', cwd=os.path.join(w, 'repo'), timeout=900)
        res['outcome'] = 'killed-by-existing-tests' if rc != 0 else 'SURVIVED'
        res['secs'] = round(time.time() - t0, 1)
        return res
    finally:
        open(src, 'w').write(orig)

def run(args):
    workers = 4
    only = None
    limit = None
    stride = 1
    i = 0
    while i < len(args):
        if args[i] == '--workers': workers = int(args[i + 1]); i += 2
        elif args[i] == '--only': only = args[i + 1]; i += 2
        elif args[i] == '--limit': limit = int(args[i + 1]); i += 2
        elif args[i] == '--stride': stride = int(args[i + 1]); i += 2
        else: i += 1
    muts = json.load(open(os.path.join(ROOT, 'mutants.json')))
    done = {}
    rp = os.path.join(ROOT, 'results.jsonl')
    if os.path.exists(rp):
        for l in open(rp):
            r = json.loads(l); done[r['id']] = r
    todo = [m for m in muts if m['id'] not in done and (only is None or m['file'] == only)]
    todo = todo[::stride]
    if limit:
        todo = todo[:limit]
    print('to run:', len(todo))
    q = queue.Queue()
    for m in todo:
        q.put(m)
    lock = threading.Lock()
    def work(k):
        w = setup_worker(k)
        while True:
            try:
                m = q.get_nowait()
            except queue.Empty:
                return
            try:
                r = run_one(w, m)
            except Exception as e:
                r = {'id': m['id'], 'file': m['file'], 'outcome': 'tool-error', 'err': str(e)[:300]}
            with lock:
                open(rp, 'a').write(json.dumps(r) + '\n')
                print(r.get('outcome'), r.get('by', ''), m['file'], m['line'] + 1, repr(m['old']), '->', repr(m['new']), '|', m['text'][:80], flush=True)
    ths = [threading.Thread(target=work, args=(k,)) for k in range(workers)]
    [t.start() for t in ths]; [t.join() for t in ths]

def report():
    rp = os.path.join(ROOT, 'results.jsonl')
    rs = [json.loads(l) for l in open(rp)]
    by = {}
    for r in rs:
        by.setdefault(r['outcome'], []).append(r)
    for k, v in by.items():
        print(k, len(v))
    live = [r for r in rs if r['outcome'] in ('detected', 'SURVIVED')]
    if live:
        print('detection rate among mutants not killed by the build: detected %d / %d (+%d killed only by the existing tests)'
              % (len(by.get('detected', [])), len(by.get('detected', [])) + len(by.get('SURVIVED', [])), len(by.get('killed-by-existing-tests', []))))
    for r in by.get('SURVIVED', []):
        print('SURVIVED', r['file'], r['line'], repr(r['old']), '->', repr(r['new']), '|', r['text'])

if __name__ == '__main__':
    cmd = sys.argv[1]
    if cmd == 'gen': gen()
    elif cmd == 'run': run(sys.argv[2:])
    elif cmd == 'report': report()
